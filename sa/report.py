"""Obligations, known-findings matching, evidence writer, exit codes.

Exit codes: 0 = every obligation discharged (or violated only by constructs listed as status "known" in
known_findings.json); 1 = an unlisted violation (prints `VIOLATION property=<id> replay=<path>`);
2 = the analysis itself could not be completed (prints `ANALYSIS-ERROR ...`), never a verdict.
"""
import json
import os
import pathlib
import time

from model import AnalysisError, norm

VERIF = pathlib.Path(__file__).resolve().parent.parent


class Ob:
    __slots__ = ('rule', 'site', 'construct', 'status', 'detail', 'line', 'path', 'nontrivial', 'extra')

    def __init__(self, rule, site, construct, status, detail, line=0, path='', nontrivial=True, extra=None):
        self.rule, self.site, self.construct, self.status, self.detail = rule, site, construct, status, detail
        self.line, self.path, self.nontrivial, self.extra = line, path, nontrivial, extra or {}

    def key(self):
        return (self.rule, self.site, self.construct)

    def as_dict(self):
        d = {'rule': self.rule, 'site': self.site, 'construct': self.construct, 'status': self.status,
             'detail': self.detail, 'where': f'{self.path}:{self.line}' if self.path else ''}
        if self.extra:
            d['values'] = self.extra
        return d


def _site(where):
    """where: FuncInfo | (path, qualname) | str"""
    if hasattr(where, 'qualname') and hasattr(where, 'mod'):
        return where.mod.path, where.qualname
    if isinstance(where, tuple):
        return where
    return '', str(where)


def unlisted(obs):
    """Violations that are not listed as known findings (any property): only these outrank an analysis error."""
    known = {(k['rule'], k['site'], k['construct']) for k in load_known() if k.get('status') == 'known'}
    return [o for o in obs if o.status == 'violated' and o.key() not in known]


class Results:
    def __init__(self, prop, tier):
        self.prop, self.tier = prop, tier
        self.obs = []
        self._seen = set()
        self.counters = {}
        self.floors = []
        self.assumptions = []
        self.notes = []
        self.samples = []
        self.exhaustive_sites = {}
        self.deferred = []
        self.t0 = time.time()

    def _add(self, rule, where, node, status, detail, nontrivial=True, construct=None, **extra):
        path, qual = _site(where)
        cons = construct if construct is not None else (norm(node) if node is not None else '')
        line = getattr(node, 'lineno', 0) if node is not None else 0
        ob = Ob(rule, f'{path}::{qual}' if path else qual, cons, status, detail, line, path, nontrivial, extra)
        k = ob.key() + (status, detail)
        if k in self._seen:
            return ob
        self._seen.add(k)
        self.obs.append(ob)
        return ob

    def ok(self, rule, where, node, detail, **kw):
        return self._add(rule, where, node, 'discharged', detail, **kw)

    def bad(self, rule, where, node, detail, **kw):
        return self._add(rule, where, node, 'violated', detail, **kw)

    def abstain(self, rule, where, node, detail, **kw):
        return self._add(rule, where, node, 'abstained', detail, nontrivial=False, **kw)

    def check(self, cond, rule, where, node, ok_detail, bad_detail=None, **kw):
        if cond:
            return self.ok(rule, where, node, ok_detail, **kw)
        return self.bad(rule, where, node, bad_detail or ('NOT: ' + ok_detail), **kw)

    def count(self, name, n=1):
        self.counters[name] = self.counters.get(name, 0) + n

    def floor(self, rule, what, measured, minimum, defer=False):
        """Vacuity guard: a rule that matched fewer instances than were confirmed by hand is analysis-broken.
        defer=True: the failure is raised at the end of the run (`raise_deferred`), so that the rules after it still get to report definite
        violations (only for floors whose dependants iterate over the matched instances and are vacuous without them)."""
        self.floors.append({'rule': rule, 'what': what, 'measured': measured, 'floor': minimum})
        if measured < minimum and defer:
            self.deferred.append(f'{rule}: only {measured} {what} found, expected at least {minimum} (anchor vanished or idiom no longer recognised)')
            return
        if measured < minimum:
            raise AnalysisError(f'{rule}: only {measured} {what} found, expected at least {minimum} '
                                f'(anchor vanished or idiom no longer recognised)')

    def raise_deferred(self):
        if self.deferred:
            raise AnalysisError(self.deferred[0])

    def assume(self, text):
        if text not in self.assumptions:
            self.assumptions.append(text)

    def sample(self, obj):
        if len(self.samples) < 40:
            self.samples.append(obj)


def load_known():
    p = VERIF / 'known_findings.json'
    if not p.exists():
        return []
    return json.loads(p.read_text()).get('findings', [])


def finish(res, explanation, level='other'):
    """Print the verdict lines, write evidence (and the replay file on violation), return the exit code."""
    prop = res.prop
    known = [k for k in load_known() if k.get('property') == prop]
    violated = [o for o in res.obs if o.status == 'violated']
    listed, unlisted = [], []
    for o in violated:
        hit = None
        for k in known:
            if k.get('status') != 'known':
                continue
            if k.get('rule') == o.rule and k.get('site') == o.site and k.get('construct') == o.construct:
                hit = k
                break
        (listed if hit else unlisted).append((o, hit))
    for o, k in listed:
        print(f'KNOWN-FINDING: property={prop} rule={o.rule} site={o.site} construct=`{o.construct}` {k.get("what_fails", o.detail)}')
    n_ob = len(res.obs)
    n_ok = sum(1 for o in res.obs if o.status == 'discharged')
    n_abs = sum(1 for o in res.obs if o.status == 'abstained')
    distinct_nontrivial = len({o.key() for o in res.obs if o.nontrivial and o.status != 'abstained'})
    samples = list(res.samples)
    for o in res.obs:
        if len(samples) >= 14:
            break
        if o.nontrivial:
            samples.append(o.as_dict())
    for o, _ in (listed + unlisted)[:10]:
        samples.append(o.as_dict())
    wall = time.time() - res.t0
    ev = {
        'property_id': prop,
        'tier': res.tier,
        'seed': int(os.environ.get('VERIF_SEED', '0') or 0),
        'level': level,
        'coverage': {
            'explanation': explanation,
            'obligations': n_ob,
            'discharged': n_ok,
            'abstained': n_abs,
            'violated_known': len(listed),
            'violated_unlisted': len(unlisted),
            'evaluations': n_ob + sum(res.counters.get(k, 0) for k in ('orderings', 'typed_ops')),
            'distinct_nontrivial': distinct_nontrivial,
            'rule': 'one obligation per (rule, site, normalised construct) found in /repo\'s current source; '
                    'non-trivial = at least one definite abstract value / resolved construct took part (abstentions excluded)',
            'samples': samples,
            'counters': res.counters,
            'floors': res.floors,
            'exhaustive': bool(res.exhaustive_sites) and all(res.exhaustive_sites.values()),
            'exhaustive_sites': res.exhaustive_sites,
            'rules': sorted({o.rule for o in res.obs}),
            'notes': res.notes,
        },
        'assumptions': res.assumptions,
        'wall_s': round(wall, 3),
        'violations': len(unlisted),
    }
    evdir = pathlib.Path(os.environ['VERIF_EVIDENCE_DIR']) if os.environ.get('VERIF_EVIDENCE_DIR') else VERIF / 'evidence'   # (override used only by the seed tooling)
    evdir.mkdir(parents=True, exist_ok=True)
    (evdir / f'{prop}.json').write_text(json.dumps(ev, indent=1, default=str))
    print(f'{prop} [{res.tier}] obligations={n_ob} discharged={n_ok} abstained={n_abs} '
          f'known={len(listed)} violations={len(unlisted)} wall={wall:.2f}s')
    if unlisted:
        rdir = pathlib.Path(os.environ['VERIF_EVIDENCE_DIR']) / 'replays' if os.environ.get('VERIF_EVIDENCE_DIR') else VERIF / 'replays'
        rdir.mkdir(parents=True, exist_ok=True)
        rp = rdir / f'{prop}.json'
        rp.write_text(json.dumps({'property': prop, 'violations': [o.as_dict() for o, _ in unlisted]}, indent=1, default=str))
        for o, _ in unlisted:
            print(f'  violated {o.rule} at {o.path}:{o.line} [{o.site}] `{o.construct}`: {o.detail}')
        print(f'VIOLATION property={prop} replay={rp}')
        return 1
    return 0
