"""E-ORD / E-NAN: exact decisions for comparison-only fragments over the finite domain of weak orderings.

A fragment that touches its numeric inputs only through <, <=, >, >=, ==, !=, min, max, swaps and boolean
connectives has an outcome that depends only on the weak ordering of those inputs (and on which of them are
NaN).  The interpreter below evaluates the fragment's AST once per ordering; symbolic inputs are `Sym` objects
that support comparison only — any arithmetic on a Sym raises NotComparisonOnly, which aborts the rule as
not-applicable (ANALYSIS-ERROR), never a verdict.  Nothing from the repository is executed: the AST is
interpreted by this module.
"""
import ast
import itertools


class NotComparisonOnly(Exception):
    pass


class Opaque:
    def __repr__(self):
        return 'OPQ'


OPQ = Opaque()


class Sym:
    """A symbolic number: rank in a weak ordering, or NaN (rank None).  `tag` (e.g. axis 'X'/'Y', role) travels along."""
    __slots__ = ('rank', 'name', 'tag')

    def __init__(self, rank, name='', tag=None):
        self.rank, self.name, self.tag = rank, name, tag

    @property
    def nan(self):
        return self.rank is None

    def __repr__(self):
        return f'{self.name}={"nan" if self.nan else self.rank}'


class Just:
    """Wrapper a hook can return to say "handled, and the value is exactly this" (needed when the value is None)."""

    def __init__(self, v):
        self.v = v


def _unwrap(r):
    return r.v if isinstance(r, Just) else r


class ArithVal:
    """Result of arithmetic on symbolic inputs when the rule supplies an 'arith' hook: only its sign (scripted by the rule) can be observed."""

    def __init__(self, node=None):
        self.node = node

    def __repr__(self):
        return 'ARITH'


class AxisMismatch(Exception):
    def __init__(self, a, b, node):
        self.a, self.b, self.node = a, b, node


def weak_orderings(k):
    """All weak orderings of k symbols as rank tuples (ranks form an initial segment 0..m)."""
    out = []
    for t in itertools.product(range(k), repeat=k):
        m = max(t)
        if set(t) == set(range(m + 1)):
            out.append(t)
    return out


_WO_CACHE = {}


def orderings(k):
    if k not in _WO_CACHE:
        _WO_CACHE[k] = weak_orderings(k)
    return _WO_CACHE[k]


class Ctl(Exception):
    def __init__(self, kind, val=None):
        self.kind, self.val = kind, val


class Row:
    """A row / tuple of symbolic values indexed by concrete ints (e.g. a bounds row, a query tuple)."""

    def __init__(self, vals):
        self.vals = list(vals)

    def __repr__(self):
        return f'Row({self.vals})'


class Interp:
    def __init__(self, env, hooks=None, check_axes=True):
        self.env = env
        self.hooks = hooks or {}
        self.events = []
        self.check_axes = check_axes
        self.compares = 0

    # ------------------------------------------------------------------ statements
    def block(self, body):
        for s in body:
            self.stmt(s)

    def stmt(self, s):
        if isinstance(s, ast.Assign):
            v = self.expr(s.value)
            for t in s.targets:
                self.assign(t, v)
        elif isinstance(s, ast.AnnAssign):
            if s.value is not None:
                self.assign(s.target, self.expr(s.value))
        elif isinstance(s, ast.AugAssign):
            cur = self.expr(_as_load(s.target))
            v = self.expr(s.value)
            if isinstance(s.op, ast.BitOr):
                r = OPQ if (cur is OPQ or v is OPQ) else (bool(cur) or bool(v))
            elif isinstance(s.op, ast.BitAnd):
                r = OPQ if (cur is OPQ or v is OPQ) else (bool(cur) and bool(v))
            elif isinstance(cur, int) and isinstance(v, int) and not isinstance(cur, bool):
                r = {ast.Add: cur + v, ast.Sub: cur - v, ast.Mult: cur * v}.get(type(s.op), OPQ)
            elif isinstance(cur, Sym) or isinstance(v, Sym):
                raise NotComparisonOnly(ast.unparse(s))
            else:
                r = OPQ
            self.assign(s.target, r)
        elif isinstance(s, ast.If):
            c = self.truth(self.expr(s.test), s.test)
            self.block(s.body if c else s.orelse)
        elif isinstance(s, ast.For):
            it = self.expr(s.iter)
            if it is OPQ:
                return
            for v in it:
                self.assign(s.target, v)
                try:
                    self.block(s.body)
                except Ctl as c:
                    if c.kind == 'break':
                        break
                    if c.kind == 'continue':
                        continue
                    raise
            else:
                self.block(s.orelse)
        elif isinstance(s, ast.While):
            # only loops whose condition is concrete (structural integers) are interpreted; capped
            for _ in range(10000):
                c = self.expr(s.test)
                if c is OPQ or isinstance(c, Sym):
                    raise NotComparisonOnly('while loop on a non-concrete condition')
                if not c:
                    break
                try:
                    self.block(s.body)
                except Ctl as ctl:
                    if ctl.kind == 'break':
                        break
                    if ctl.kind == 'continue':
                        continue
                    raise
            else:
                raise NotComparisonOnly('while loop did not terminate within the cap')
        elif isinstance(s, ast.Break):
            raise Ctl('break')
        elif isinstance(s, ast.Continue):
            raise Ctl('continue')
        elif isinstance(s, ast.Return):
            raise Ctl('return', self.expr(s.value) if s.value is not None else None)
        elif isinstance(s, ast.Raise):
            raise Ctl('raise')
        elif isinstance(s, ast.Expr):
            self.expr(s.value)
        elif isinstance(s, (ast.Pass, ast.Assert, ast.Import, ast.ImportFrom)):
            pass
        else:
            pass

    def truth(self, v, node=None):
        if v is OPQ:
            h = self.hooks.get('opaque_test')
            if h is not None:
                return h(self, node)
            raise NotComparisonOnly(f'branch on an opaque value: {ast.unparse(node) if node is not None else "?"}')
        if isinstance(v, Sym):
            raise NotComparisonOnly('truth value of a symbolic number')
        return bool(v)

    def assign(self, t, v):
        if isinstance(t, ast.Name):
            self.env[t.id] = v
        elif isinstance(t, (ast.Tuple, ast.List)):
            if v is OPQ:
                for e in t.elts:
                    self.assign(e, OPQ)
            else:
                if not isinstance(v, (Row, list, tuple)):
                    raise NotComparisonOnly(f'unpacking of a value that is not a row ({type(v).__name__})')
                vals = v.vals if isinstance(v, Row) else list(v)
                if len(vals) != len(t.elts):
                    for e in t.elts:
                        self.assign(e, OPQ)
                else:
                    for e, x in zip(t.elts, vals):
                        self.assign(e, x)
        elif isinstance(t, ast.Subscript):
            base = self.expr(t.value)
            h = self.hooks.get('store')
            if h is not None:
                h(self, t, base, v)
        elif isinstance(t, ast.Attribute):
            pass

    # ------------------------------------------------------------------ expressions
    def compare(self, a, op, b, node):
        if a is OPQ or b is OPQ:
            return OPQ
        if isinstance(op, (ast.Is, ast.IsNot)):
            return (a is b or (a is None and b is None)) == isinstance(op, ast.Is)
        if isinstance(op, (ast.In, ast.NotIn)):
            try:
                return (a in b) == isinstance(op, ast.In)
            except TypeError:
                return OPQ
        if isinstance(a, ArithVal) or isinstance(b, ArithVal):
            h = self.hooks.get('arith_sign')
            other = b if isinstance(a, ArithVal) else a
            if h is None or not (isinstance(other, (int, float)) and other == 0):
                raise NotComparisonOnly(f'arithmetic result compared with something else than 0: {ast.unparse(node)}')
            sgn = h(self, node)
            x, y = (sgn, 0) if isinstance(a, ArithVal) else (0, sgn)
            return {ast.Lt: x < y, ast.LtE: x <= y, ast.Gt: x > y, ast.GtE: x >= y, ast.Eq: x == y, ast.NotEq: x != y}[type(op)]
        sa, sb = isinstance(a, Sym), isinstance(b, Sym)
        if sa or sb:
            self.compares += 1
            if sa and sb:
                if self.check_axes and a.tag is not None and b.tag is not None and a.tag != b.tag:
                    raise AxisMismatch(a, b, node)
                if a.nan or b.nan:
                    return isinstance(op, ast.NotEq)
                x, y = a.rank, b.rank
            else:
                # comparison of a symbol with a concrete number: not order-type decidable
                raise NotComparisonOnly(f'symbol compared with a constant: {ast.unparse(node)}')
        else:
            x, y = a, b
        try:
            return {ast.Lt: x < y, ast.LtE: x <= y, ast.Gt: x > y, ast.GtE: x >= y, ast.Eq: x == y, ast.NotEq: x != y}[type(op)]
        except (KeyError, TypeError):
            return OPQ

    def expr(self, e):
        if e is None:
            return None
        if isinstance(e, ast.Constant):
            return e.value
        if isinstance(e, ast.Name):
            if e.id in self.env:
                return self.env[e.id]
            h = self.hooks.get('name')
            if h is not None:
                return h(self, e)
            return OPQ
        if isinstance(e, (ast.Tuple, ast.List)):
            return [self.expr(x) for x in e.elts]
        if isinstance(e, ast.BoolOp):
            res = isinstance(e.op, ast.And)
            for x in e.values:
                v = self.truth(self.expr(x), x)
                if isinstance(e.op, ast.Or) and v:
                    return True
                if isinstance(e.op, ast.And) and not v:
                    return False
            return res
        if isinstance(e, ast.UnaryOp):
            v = self.expr(e.operand)
            if v is OPQ:
                return OPQ
            if isinstance(e.op, (ast.Not, ast.Invert)):
                if isinstance(v, Sym):
                    raise NotComparisonOnly(ast.unparse(e))
                return not v
            if isinstance(e.op, ast.USub) and isinstance(v, (int, float)) and not isinstance(v, bool):
                return -v
            raise NotComparisonOnly(ast.unparse(e))
        if isinstance(e, ast.Compare):
            left = self.expr(e.left)
            for op, c in zip(e.ops, e.comparators):
                right = self.expr(c)
                r = self.compare(left, op, right, e)
                if r is OPQ:
                    return OPQ
                if not r:
                    return False
                left = right
            return True
        if isinstance(e, ast.BinOp):
            a, b = self.expr(e.left), self.expr(e.right)
            if isinstance(e.op, (ast.BitOr, ast.BitAnd)):
                if a is OPQ or b is OPQ:
                    return OPQ
                if isinstance(a, Sym) or isinstance(b, Sym):
                    raise NotComparisonOnly(ast.unparse(e))
                return (bool(a) or bool(b)) if isinstance(e.op, ast.BitOr) else (bool(a) and bool(b))
            if isinstance(a, (Sym, ArithVal)) or isinstance(b, (Sym, ArithVal)):
                if self.hooks.get('arith_sign') is not None and isinstance(e.op, (ast.Add, ast.Sub, ast.Mult, ast.Div)):
                    return ArithVal(e)
                raise NotComparisonOnly(f'arithmetic on a symbolic input: {ast.unparse(e)}')
            if a is OPQ or b is OPQ:
                return OPQ
            if isinstance(a, list) and isinstance(b, list) and isinstance(e.op, ast.Add):
                return a + b
            if all(isinstance(x, int) and not isinstance(x, bool) for x in (a, b)):
                try:
                    return {ast.Add: lambda: a + b, ast.Sub: lambda: a - b, ast.Mult: lambda: a * b,
                            ast.FloorDiv: lambda: a // b, ast.Mod: lambda: a % b,
                            ast.Pow: lambda: a ** b if 0 <= b < 64 else OPQ,
                            ast.LShift: lambda: a << b if 0 <= b < 64 else OPQ, ast.RShift: lambda: a >> b if 0 <= b < 64 else OPQ}[type(e.op)]()
                except (KeyError, ZeroDivisionError):
                    return OPQ
            return OPQ
        if isinstance(e, ast.IfExp):
            c = self.truth(self.expr(e.test), e.test)
            return self.expr(e.body if c else e.orelse)
        if isinstance(e, ast.Subscript):
            base = self.expr(e.value)
            h = self.hooks.get('subscript')
            if h is not None:
                r = h(self, e, base)
                if r is not None:
                    return _unwrap(r)
            if isinstance(base, Row):
                sl = e.slice
                if isinstance(sl, ast.Tuple):
                    # [rows, col] on a scalarised 2-d array: the row selector is ignored
                    if len(sl.elts) == 2 and not isinstance(sl.elts[1], ast.Slice):
                        col = self.expr(sl.elts[1])
                        if isinstance(col, int):
                            return base.vals[col]
                        return OPQ
                    return base
                if isinstance(sl, ast.Slice):
                    lo = self.expr(sl.lower) if sl.lower is not None else None
                    hi = self.expr(sl.upper) if sl.upper is not None else None
                    if (lo is None or isinstance(lo, int)) and (hi is None or isinstance(hi, int)) and sl.step is None:
                        return Row(base.vals[lo:hi])
                    return OPQ
                i = self.expr(sl)
                if isinstance(i, int) and -len(base.vals) <= i < len(base.vals):
                    return base.vals[i]
                return OPQ
            if isinstance(base, list):
                i = self.expr(e.slice) if not isinstance(e.slice, ast.Slice) else None
                if isinstance(i, int) and -len(base) <= i < len(base):
                    return base[i]
                return OPQ
            return OPQ
        if isinstance(e, ast.Attribute):
            h = self.hooks.get('attr')
            if h is not None:
                r = h(self, e)
                if r is not None:
                    return _unwrap(r)
            return OPQ
        if isinstance(e, ast.Call):
            h = self.hooks.get('call')
            if h is not None:
                r = h(self, e)
                if r is not None:
                    return _unwrap(r)
            fn = ast.unparse(e.func)
            if fn == 'range':
                a = [self.expr(x) for x in e.args]
                if all(isinstance(x, int) for x in a):
                    return range(*a)
                return OPQ
            if fn == 'len':
                v = self.expr(e.args[0])
                if isinstance(v, Row):
                    return len(v.vals)
                if isinstance(v, list):
                    return len(v)
                return OPQ
            if fn in ('np.zeros', 'numpy.zeros'):
                return False
            if fn in ('np.ones', 'numpy.ones'):
                return True
            if fn in ('np.isnan', 'numpy.isnan', 'math.isnan', 'isnan'):
                v = self.expr(e.args[0])
                if isinstance(v, Sym):
                    return v.nan
                return OPQ
            if fn in ('np.isfinite', 'numpy.isfinite'):
                v = self.expr(e.args[0])
                if isinstance(v, Sym):
                    return not v.nan
                return OPQ
            if fn in ('min', 'max', 'np.minimum', 'np.maximum'):
                vals = [self.expr(a) for a in e.args]
                if len(vals) == 1 and isinstance(vals[0], (list, Row)):
                    vals = vals[0].vals if isinstance(vals[0], Row) else vals[0]
                if any(v is OPQ for v in vals):
                    return OPQ
                if all(isinstance(v, Sym) for v in vals):
                    if self.check_axes:
                        tags = {v.tag for v in vals if v.tag is not None}
                        if len(tags) > 1:
                            raise AxisMismatch(vals[0], vals[1], e)
                    if any(v.nan for v in vals):
                        # (S15) python's and numba's min / max keep the FIRST operand unless a later one compares smaller / greater; comparisons with NaN are false
                        res_ = vals[0]
                        for v_ in vals[1:]:
                            if not res_.nan and not v_.nan and ((v_.rank < res_.rank) if fn in ('min', 'np.minimum') else (v_.rank > res_.rank)):
                                res_ = v_
                        if fn in ('np.minimum', 'np.maximum'):
                            return next(v_ for v_ in vals if v_.nan)      # the numpy ufuncs propagate NaN
                        return res_
                    key = (lambda v: v.rank)
                    return (min if fn in ('min', 'np.minimum') else max)(vals, key=key)
                if all(isinstance(v, (int, float)) for v in vals):
                    return (min if fn in ('min', 'np.minimum') else max)(vals)
                return OPQ
            if fn in ('float', 'int', 'np.float64', 'np.float32', 'np.int64', 'numpy.float64') and e.args:        # value-preserving conversions of a coordinate (order kept)
                return self.expr(e.args[0])
            if fn in ('tuple', 'list') and e.args:
                v = self.expr(e.args[0])
                return v
            if isinstance(e.func, ast.Attribute) and e.func.attr in ('append', 'extend', 'pop', 'add'):
                self.events.append((fn, [self.expr(a) for a in e.args]))
                return OPQ
            if isinstance(e.func, ast.Attribute):
                self.expr(e.func.value)
            for a in e.args:
                self.expr(a)
            return OPQ
        if isinstance(e, (ast.ListComp, ast.GeneratorExp)):
            if len(e.generators) != 1 or e.generators[0].ifs:
                return OPQ
            g = e.generators[0]
            it = self.expr(g.iter)
            if it is OPQ or isinstance(it, Sym):
                return OPQ
            seq = it.vals if isinstance(it, Row) else it
            out = []
            saved = dict(self.env)
            for v in seq:
                self.assign(g.target, v)
                out.append(self.expr(e.elt))
            for k in list(self.env):
                if k not in saved:
                    del self.env[k]
                else:
                    self.env[k] = saved[k]
            return out
        if isinstance(e, ast.JoinedStr):
            return OPQ
        return OPQ


def _as_load(t):
    n = ast.parse(ast.unparse(t), mode='eval').body
    return n


def run_fragment(stmts, env, hooks=None, check_axes=True):
    """Interpret statements; returns (interp, control) where control is None | Ctl."""
    I = Interp(env, hooks, check_axes)
    try:
        I.block(stmts)
    except Ctl as c:
        return I, c
    return I, None


class Chooser:
    """Scripted outcomes for tests on opaque values; unexplored positions default to False and are queued for the other outcome."""

    def __init__(self, script):
        self.script = list(script)
        self.i = 0

    def __call__(self, interp=None, node=None):
        if self.i < len(self.script):
            c = self.script[self.i]
        else:
            c = False
            self.script.append(False)
        self.i += 1
        return c


def explore(run, max_worlds=64):
    """Run `run(chooser)` for every combination of outcomes of the opaque tests it meets (depth-first, bounded).
    Returns [(script, result)]."""
    out = []
    stack = [[]]
    while stack and len(out) < max_worlds:
        script = stack.pop()
        ch = Chooser(script)
        n0 = len(script)
        res = run(ch)
        out.append((tuple(ch.script), res))
        for i in range(n0, len(ch.script)):
            stack.append(ch.script[:i] + [True])
    return out
