"""E-EFF: which parameters does a function store into (directly, or by handing them to a callee that does)?

Flow-sensitive within a function for the one thing that matters here: a parameter name that has been
*unconditionally re-bound* to a new object (`x = list(x)`, `x = x.copy()`, `x = np.asarray(...)`) no longer
aliases the caller's object.  Aliases `y = x`, `y = x[a:b]` (numpy basic slices are views) and tuple
unpacking of a parameter are followed.  Stores: subscript/attribute assignment, augmented assignment on a
subscript, and the in-place methods listed in INPLACE.
"""
import ast

from model import walk_own, FuncInfo, norm

INPLACE = {'fill', 'append', 'extend', 'insert', 'pop', 'remove', 'clear', 'sort', 'reverse', 'update', 'add',
           'discard', 'setdefault', 'popitem', 'resize', 'put', 'itemset', 'setflags', 'partition'}
FRESH_CALLS = {'copy', 'astype', 'tolist', 'ravel_copy'}
FRESH_FUNCS = {'list', 'tuple', 'dict', 'set', 'sorted', 'zeros', 'ones', 'full', 'empty', 'zeros_like', 'ones_like', 'full_like',
               'empty_like', 'arange', 'array', 'concatenate', 'stack', 'hstack', 'vstack', 'copy', 'deepcopy', 'nonzero',
               'argsort', 'sort', 'unique', 'where', 'linspace', 'DataFrame', 'Series', 'atleast_2d_copy'}
VIEW_FUNCS = {'asarray', 'ascontiguousarray', 'atleast_1d', 'atleast_2d', 'ravel', 'reshape', 'view', 'squeeze', 'transpose'}


def base_name(e):
    """Name at the root of a subscript/attribute/view chain: a[i].b[j] -> a ; (also through .view(), .reshape(), [..])"""
    while True:
        if isinstance(e, ast.Name):
            return e.id
        if isinstance(e, (ast.Subscript, ast.Attribute, ast.Starred)):
            e = e.value
            continue
        if isinstance(e, ast.Call) and isinstance(e.func, ast.Attribute) and isinstance(e.func.value, ast.Name) \
                and e.func.value.id in ('np', 'numpy') and e.func.attr in VIEW_FUNCS and e.args:
            e = e.args[0]
            continue
        if isinstance(e, ast.Call) and isinstance(e.func, ast.Attribute) and e.func.attr in VIEW_FUNCS:
            e = e.func.value
            continue
        return None


def is_fresh_expr(e):
    """Expression certainly denoting a new object."""
    if isinstance(e, (ast.List, ast.Tuple, ast.Dict, ast.Set, ast.ListComp, ast.DictComp, ast.SetComp, ast.Constant, ast.JoinedStr,
                      ast.BinOp, ast.Compare, ast.BoolOp, ast.UnaryOp)):
        return True
    if isinstance(e, ast.Call):
        fn = e.func
        if isinstance(fn, ast.Attribute) and fn.attr in FRESH_CALLS:
            return True
        name = fn.attr if isinstance(fn, ast.Attribute) else fn.id if isinstance(fn, ast.Name) else None
        if name in FRESH_FUNCS:
            return True
    return False


class Effects:
    def __init__(self, P):
        self.P = P
        self.direct = {}     # f.key -> {param: [store nodes]}
        self.calls = {}      # f.key -> [(call node, callee FuncInfo, {callee_param: caller_param})]
        self.funcs = {}
        self.attr_writes = []   # (FuncInfo, stmt, receiver expr, attribute name) for every `recv.attr = ...` in the package
        self.via = {}           # f.key -> {param: [(call node, callee, callee param)]}
        for f in P.all_funcs():
            self.funcs[f.key] = f
            self._scan(f)
        self.mut = {k: set(v) for k, v in self.direct.items()}
        changed = True
        while changed:
            changed = False
            for k, cs in self.calls.items():
                for call, g, binding in cs:
                    for gp, fp in binding.items():
                        if gp in self.mut.get(g.key, ()):
                            lst = self.via.setdefault(k, {}).setdefault(fp, [])
                            if not any(x[0] is call and x[2] == gp for x in lst):
                                lst.append((call, g, gp))
                            if fp not in self.mut[k]:
                                self.mut[k].add(fp)
                                changed = True

    def mutated_params(self, f):
        return self.mut.get(f.key, set())

    # ------------------------------------------------------------------
    def _scan(self, f):
        self._cur = f
        params = [p for p in f.params]
        alias = {p: {p} for p in params}           # local name -> set of params it may alias
        stores = {}
        calls = []
        self._block(f, f.body, alias, stores, calls, top=True)
        self.direct[f.key] = stores
        self.calls[f.key] = calls

    def _aliases_of(self, alias, e):
        b = base_name(e)
        return set(alias.get(b, ())) if b is not None else set()

    def _block(self, f, body, alias, stores, calls, top=False):
        for s in body:
            self._stmt(f, s, alias, stores, calls, top)

    def _record_store(self, alias, stores, target_expr, node):
        kind = 'deep'
        if isinstance(target_expr, ast.Attribute) and isinstance(target_expr.value, ast.Name) and isinstance(node, (ast.Assign, ast.AnnAssign)):
            kind = 'attr:' + target_expr.attr          # plain re-binding of an attribute of the object
        for p in self._aliases_of(alias, target_expr):
            stores.setdefault(p, []).append((node, kind))
        if isinstance(target_expr, ast.Attribute):
            self.attr_writes.append((self._cur, node, target_expr.value, target_expr.attr))

    def _exprs(self, f, node, alias, stores, calls):
        """Calls and in-place method calls inside an expression/statement (own level only)."""
        for n in ast.walk(node):
            if isinstance(n, (ast.FunctionDef, ast.Lambda)) and n is not node:
                continue
            if isinstance(n, ast.Call):
                if isinstance(n.func, ast.Attribute) and n.func.attr in INPLACE:
                    self._record_store(alias, stores, n.func.value, n)
                for k in n.keywords:
                    if k.arg == 'inplace' and isinstance(k.value, ast.Constant) and k.value.value is True and isinstance(n.func, ast.Attribute):
                        self._record_store(alias, stores, n.func.value, n)
                    if k.arg == 'out' and k.value is not None:
                        self._record_store(alias, stores, k.value, n)
                r = self.P.resolve_call(f, n)
                if r and r[0] == 'func':
                    g = r[1]
                    gparams = g.params
                    if g.kind in ('method', 'property', 'classmethod') and gparams and gparams[0] in ('self', 'cls') \
                            and not (isinstance(n.func, ast.Attribute) and isinstance(n.func.value, ast.Name) and False):
                        # bound call: receiver binds self
                        recv = n.func.value if isinstance(n.func, ast.Attribute) else None
                        binding = {}
                        if recv is not None:
                            for p in self._aliases_of(alias, recv):
                                binding.setdefault(gparams[0], p)
                        gp = gparams[1:]
                    else:
                        binding = {}
                        gp = gparams
                    for i, a in enumerate(n.args):
                        if isinstance(a, ast.Starred) or i >= len(gp):
                            break
                        for p in self._aliases_of(alias, a):
                            binding[gp[i]] = p
                    for k in n.keywords:
                        if k.arg in gp:
                            for p in self._aliases_of(alias, k.value):
                                binding[k.arg] = p
                    calls.append((n, g, binding))

    def _stmt(self, f, s, alias, stores, calls, top):
        if isinstance(s, (ast.FunctionDef, ast.AsyncFunctionDef, ast.ClassDef)):
            return
        if isinstance(s, ast.Assign):
            self._exprs(f, s.value, alias, stores, calls)
            for t in s.targets:
                self._assign_target(f, t, s.value, alias, stores, calls, s)
            return
        if isinstance(s, ast.AnnAssign):
            if s.value is not None:
                self._exprs(f, s.value, alias, stores, calls)
                self._assign_target(f, s.target, s.value, alias, stores, calls, s)
            return
        if isinstance(s, ast.AugAssign):
            self._exprs(f, s.value, alias, stores, calls)
            if isinstance(s.target, (ast.Subscript, ast.Attribute)):
                self._record_store(alias, stores, s.target, s)
            elif isinstance(s.target, ast.Name):
                # x += v : in place for lists/arrays; conservatively a store when x still aliases a parameter
                # and the value is not a plain number
                if not isinstance(s.value, ast.Constant):
                    pass
            return
        if isinstance(s, ast.If):
            self._exprs(f, s.test, alias, stores, calls)
            a1 = {k: set(v) for k, v in alias.items()}
            a2 = {k: set(v) for k, v in alias.items()}
            self._block(f, s.body, a1, stores, calls)
            self._block(f, s.orelse, a2, stores, calls)
            for k in set(a1) | set(a2):
                alias[k] = set(a1.get(k, ())) | set(a2.get(k, ()))
            return
        if isinstance(s, (ast.For, ast.AsyncFor)):
            self._exprs(f, s.iter, alias, stores, calls)
            # loop variable aliases elements of the iterable (rows of an array are views)
            it_alias = self._aliases_of(alias, s.iter)
            for n in ast.walk(s.target):
                if isinstance(n, ast.Name):
                    alias[n.id] = set(it_alias)
            for _ in range(2):
                self._block(f, s.body, alias, stores, calls)
            self._block(f, s.orelse, alias, stores, calls)
            return
        if isinstance(s, ast.While):
            self._exprs(f, s.test, alias, stores, calls)
            for _ in range(2):
                self._block(f, s.body, alias, stores, calls)
            self._block(f, s.orelse, alias, stores, calls)
            return
        if isinstance(s, (ast.With, ast.AsyncWith)):
            for it in s.items:
                self._exprs(f, it.context_expr, alias, stores, calls)
                if it.optional_vars is not None:
                    for n in ast.walk(it.optional_vars):
                        if isinstance(n, ast.Name):
                            alias[n.id] = set()
            self._block(f, s.body, alias, stores, calls)
            return
        if isinstance(s, ast.Try):
            self._block(f, s.body, alias, stores, calls)
            for h in s.handlers:
                self._block(f, h.body, alias, stores, calls)
            self._block(f, s.orelse, alias, stores, calls)
            self._block(f, s.finalbody, alias, stores, calls)
            return
        if isinstance(s, ast.Delete):
            for t in s.targets:
                if isinstance(t, (ast.Subscript, ast.Attribute)):
                    self._record_store(alias, stores, t, s)
            return
        self._exprs(f, s, alias, stores, calls)

    def _assign_target(self, f, t, value, alias, stores, calls, stmt):
        if isinstance(t, ast.Name):
            if is_fresh_expr(value):
                alias[t.id] = set()
            else:
                alias[t.id] = self._aliases_of(alias, value)
                if isinstance(value, ast.IfExp):
                    alias[t.id] = self._aliases_of(alias, value.body) | self._aliases_of(alias, value.orelse)
        elif isinstance(t, (ast.Tuple, ast.List)):
            src = self._aliases_of(alias, value)
            if isinstance(value, (ast.Tuple, ast.List)) and len(value.elts) == len(t.elts):
                for e, v in zip(t.elts, value.elts):
                    self._assign_target(f, e, v, alias, stores, calls, stmt)
            else:
                for e in t.elts:
                    for n in ast.walk(e):
                        if isinstance(n, ast.Name):
                            alias[n.id] = set(src)
        elif isinstance(t, (ast.Subscript, ast.Attribute)):
            self._record_store(alias, stores, t, stmt)
        elif isinstance(t, ast.Starred):
            self._assign_target(f, t.value, value, alias, stores, calls, stmt)


_CACHE = {}


def effects(P):
    if id(P) not in _CACHE:
        _CACHE[id(P)] = Effects(P)
    return _CACHE[id(P)]
