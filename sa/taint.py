"""E-FLOW taint: values of null slots of a fixed-width (FixedSizeBinary) array are arbitrary bytes (S1).

Source    : `self.flat_values` inside GeometryFixedArray and its subclasses.
Sanitisers: indexing by a mask derived from `isna()`, `x & ~missing`-style conjunction with such a mask, np.where on such a mask.
Sinks     : the value returned by every public method / property of those classes.
Summaries : a private helper (or property) whose return value is tainted taints its callers.
Flow-insensitive per function (a name is tainted if any assignment to it is), which errs on the side of "tainted";
the accepted sanitising idioms are the ones enumerated above, confirmed by reading today's tree.
"""
import ast

from model import walk_own, full as norm


def _is_isna_call(e):
    return isinstance(e, ast.Call) and isinstance(e.func, ast.Attribute) and e.func.attr in ('isna', 'isnull')


class ClassTaint:
    def __init__(self, P, ci, source_attr='flat_values'):
        self.P, self.ci, self.source_attr = P, ci, source_attr
        self.memo = {}
        self.why = {}

    def method(self, name):
        c, m = self.P.lookup(self.ci, name)
        if m is not None and m[0] == 'func':
            return m[1]
        return None

    def returns_tainted(self, f, depth=0):
        if f.key in self.memo:
            return self.memo[f.key]
        self.memo[f.key] = False
        if depth > 8:
            return False
        masks = set()        # names holding an isna-derived mask
        tainted = set()
        changed = True

        def mask_expr(e):
            if e is None:
                return False
            if _is_isna_call(e):
                return True
            if isinstance(e, ast.Name):
                return e.id in masks
            if isinstance(e, ast.UnaryOp) and isinstance(e.op, (ast.Invert, ast.Not)):
                return mask_expr(e.operand)
            if isinstance(e, ast.Subscript):
                return mask_expr(e.value)
            if isinstance(e, ast.Call) and isinstance(e.func, ast.Attribute) and e.func.attr in ('copy', 'astype', 'ravel'):
                return mask_expr(e.func.value)
            if isinstance(e, ast.BinOp) and isinstance(e.op, (ast.BitOr, ast.BitAnd)):
                return mask_expr(e.left) and mask_expr(e.right)
            return False

        def t(e):
            if e is None:
                return False
            if isinstance(e, ast.Attribute):
                if isinstance(e.value, ast.Name) and e.value.id == 'self':
                    if e.attr == self.source_attr:
                        return True
                    g = self.method(e.attr)
                    if g is not None and g.kind == 'property' and g is not f:
                        return self.returns_tainted(g, depth + 1)
                    return False
                return t(e.value)
            if isinstance(e, ast.Name):
                return e.id in tainted
            if isinstance(e, ast.Subscript):
                idx = e.slice
                if mask_expr(idx):
                    return False
                return t(e.value)
            if isinstance(e, ast.BinOp):
                if isinstance(e.op, ast.BitAnd) and (mask_expr(e.left) or mask_expr(e.right)):
                    return False
                return t(e.left) or t(e.right)
            if isinstance(e, ast.UnaryOp):
                return t(e.operand)
            if isinstance(e, ast.BoolOp):
                return any(t(v) for v in e.values)
            if isinstance(e, ast.Compare):
                return t(e.left) or any(t(c) for c in e.comparators)
            if isinstance(e, ast.IfExp):
                return t(e.body) or t(e.orelse)
            if isinstance(e, (ast.Tuple, ast.List)):
                return any(t(x) for x in e.elts)
            if isinstance(e, ast.Call):
                fn = e.func
                if isinstance(fn, ast.Attribute) and isinstance(fn.value, ast.Name) and fn.value.id == 'self':
                    g = self.method(fn.attr)
                    if g is not None and g is not f:
                        if self.returns_tainted(g, depth + 1):
                            return True
                    return any(t(a) for a in e.args)
                if isinstance(fn, ast.Attribute) and norm(fn).endswith('np.where') and e.args and mask_expr(e.args[0]):
                    return False
                if isinstance(fn, ast.Attribute) and t(fn.value):
                    return True
                return any(t(a) for a in e.args) or any(t(k.value) for k in e.keywords)
            return False

        # phase 1: names holding validity masks
        grow = True
        while grow:
            grow = False
            for s in walk_own(f.node):
                if isinstance(s, ast.Assign) and mask_expr(s.value):
                    for tg in s.targets:
                        if isinstance(tg, ast.Name) and tg.id not in masks:
                            masks.add(tg.id)
                            grow = True
        # phase 2: names re-bound to a sanitised value under `if <mask>.any():` — without missing elements there are no placeholder
        # slots, so the unsanitised initial binding is harmless
        cond_clean = set()
        for s in walk_own(f.node):
            if isinstance(s, ast.If) and isinstance(s.test, ast.Call) and isinstance(s.test.func, ast.Attribute) and s.test.func.attr == 'any' \
                    and mask_expr(s.test.func.value):
                for x in s.body:
                    if isinstance(x, ast.Assign) and len(x.targets) == 1 and isinstance(x.targets[0], ast.Name) \
                            and any(isinstance(y, ast.Subscript) and mask_expr(y.slice) for y in ast.walk(x.value)):
                        cond_clean.add(x.targets[0].id)
        while changed:
            changed = False
            for s in walk_own(f.node):
                if isinstance(s, ast.Assign):
                    for tg in s.targets:
                        names = [tg] if isinstance(tg, ast.Name) else ([x for x in tg.elts if isinstance(x, ast.Name)] if isinstance(tg, (ast.Tuple, ast.List)) else [])
                        for nm in names:
                            if mask_expr(s.value) and nm.id not in masks:
                                masks.add(nm.id)
                                changed = True
                            if t(s.value) and nm.id not in tainted and nm.id not in cond_clean:
                                tainted.add(nm.id)
                                changed = True
                            if nm.id in cond_clean and t(s.value) and not any(x is s for iff in walk_own(f.node) if isinstance(iff, ast.If) for x in iff.body) \
                                    and False:
                                pass
                        if isinstance(tg, ast.Subscript) and isinstance(tg.value, ast.Name):
                            # res[mask] = value : tainted only if the stored value is
                            if t(s.value) and tg.value.id not in tainted:
                                tainted.add(tg.value.id)
                                changed = True
                elif isinstance(s, ast.AugAssign) and isinstance(s.target, ast.Name):
                    if t(s.value) and s.target.id not in tainted:
                        tainted.add(s.target.id)
                        changed = True
                elif isinstance(s, (ast.For, ast.comprehension)):
                    if t(s.iter):
                        for x in ast.walk(s.target):
                            if isinstance(x, ast.Name) and x.id not in tainted:
                                tainted.add(x.id)
                                changed = True
        res = False
        for s in walk_own(f.node):
            if isinstance(s, ast.Return) and s.value is not None and t(s.value):
                res = True
                self.why[f.key] = s
        self.memo[f.key] = res
        return res
