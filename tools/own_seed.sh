#!/bin/bash
# own-property result for a staged change dir
S=$1; t=$(basename $(dirname $S)); p=${t:0:3}
out=$(/verif/tools/try_seed.sh $S $p 2>&1)
rc=$(echo "$out" | grep -o "rc=[0-9]" | head -1)
rules=$(echo "$out" | grep -o 'violated C[0-9]*\.[a-z]*' | sort -u | tr '\n' ' ')
echo "$t/$(basename $S) ${rc:-rc=0} $rules"
