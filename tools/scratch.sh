#!/bin/bash
# usage: tools/scratch.sh <dir>  -- copy <SCRATCH_SRC or /repo>/spatialpandas (without tests) to <dir>/spatialpandas
set -e
mkdir -p "$1"
rsync -a --include='*/' --exclude='tests/' --include='*.py' --exclude='*' "${SCRATCH_SRC:-/repo}"/spatialpandas "$1"/
