#!/bin/bash
# usage: tools/scratch.sh <dir>  -- copy /repo/spatialpandas (without tests) to <dir>/spatialpandas
set -e
mkdir -p "$1"
rsync -a --include='*/' --exclude='tests/' --include='*.py' --exclude='*' /repo/spatialpandas "$1"/
