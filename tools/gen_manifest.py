#!/usr/bin/env python3
"""Generate /verif/MANIFEST.json from the table below (one entry per property whose rule module exists)."""
import json
import os
import pathlib

V = pathlib.Path(__file__).resolve().parent.parent

COMMON_NOTE = ('Trusted base: CPython ast; the frozen seeds S1-S8 of DESIGN.md §4 (Arrow buffer layout, x/y interleaving, box convention, '
               'numba/pandas/fsspec/dask contracts). Decides necessary conditions visible in the shape of the code; does not decide: ')

CLAIMS = {
    'C01': dict(text='Static analysis: units/levels abstract interpretation of all intersects_bounds forms down to the numba kernels (axis, level, base, parity, '
                     'fencepost, in-loop confinement), CFG dominance of box re-orientation, exhaustive weak-ordering evaluation of the comparison-only fragments '
                     '(closed box membership, interval overlap, bbox reject soundness, projection shortcut), form agreement scalar/array/inds, inert rows => False, '
                     'containment fallback on every non-accepting exit. Orientation sign table and box-edge coverage (finite tables), IEEE (no-fastmath) compilation of the kernels. Edge tests collected by interpreting the call chain down to segments_intersect; rejects inside it sound for the arguments passed at these call sites; scalar point compares in double precision. Offsets of masked rows never dereferenced without the mask; scratch buffers allocated per element iteration.',
                undecided='correctness of the orientation/winding arithmetic, the geometric lemma behind the projection shortcut, exact-arithmetic behaviour.',
                technique='abstract interpretation (units/levels type system) + CFG dominance + exhaustive order-type evaluation', ref='§5 C01'),
    'C02': dict(text='Static analysis: units typing of the point-vs-shape kernels and wrappers, scalar/array/inds agreement, exhaustive evaluation of the half-open edge rule and '
                     'the closed segment bbox over all weak orderings, validity-mask sanitisation of fixed-width values. Paired (same-member) multipoint membership; scalar point equality on coordinate values. Coordinate buffers are read row-major (x,y interleaved); wrappers pass kernel arguments in the kernel\'s own order; scalar dtype derived from the data.',
                undecided='winding-number arithmetic, behaviour exactly on ring boundaries.',
                technique='abstract interpretation + exhaustive order-type evaluation + taint (validity mask)', ref='§5 C02'),
    'C03': dict(text='Static analysis of HilbertRtree: exhaustive weak-ordering (and NaN) evaluation of node pruning (soundness) and leaf classification (equivalence) for '
                     'n=1..3 dimensions, NaN-safe reductions in the builder, page/parent rows = (min of lower bounds, max of upper bounds), builder/reader agreement of the '
                     'leaf<->key-slice arithmetic, cursor discipline of the result buffers, pairing of key slices with the masks computed from the same start:stop. GeometryArray.sindex is built on all rows\' bounds in array order; no fastmath (discharges the NaN-comparison assumption). Public wrappers return the traversal\'s answer; queries do not write the index. Small-scope evaluation (E-VEC) of the whole query methods on all small trees with NaN rows (exact answer, exactly once, covered/partial split), of the leaf page reduction, of the page count (every stored row is in a leaf) and of every raise guard reachable from the constructor over d in 1..3, p in 1..31; the query is handed to the traversal unmodified.',
                undecided='disjointness of traversal ranges as an inductive invariant, independence from p as a whole, exactly-once as a whole.',
                technique='small-scope evaluation of the query / build kernels by abstract interpretation over small concrete domains + exhaustive order-type evaluation + CFG pairing', ref='§5 C03'),
    'C04': dict(text='Static analysis of the cx indexers: axes/defaults/swap/layout of _get_bounds (order-type evaluation), covered U tested rows with mask pairing and order '
                     'restoration, active geometry + parent handed to the indexer, positional selection, who may write _sindex. Necessary obligations of C03 (the index answers exactly) are re-reported here. Exact test on every path of the resolved __getitem__ (overrides and super() followed); boxes fed to the index (C13) re-reported. build_sindex always builds (no stale index returned).',
                undecided='the exact test itself (C01), pandas indexing semantics.',
                technique='order-type evaluation + def-use pairing + who-may-write', ref='§5 C04'),
    'C05': dict(text='Static analysis of sjoin: emitted pairs flow only through the exact-predicate mask of the same candidates, same-row rule, outcome-level join-kind '
                     'flags per merge chain (unmatched left/right rows kept?), suffix order, geometry drop, index restoration, Dask form zips partitions with their own bounds. Necessary obligations of C02 (predicate) and C03 (candidates) are re-reported here. Index reset on every path of _record_reset_index unless the guard proves labels = positions.',
                undecided='pandas merge semantics (multiplicity, NaN fill, column order), index dtypes.',
                technique='def-use provenance + merge-chain abstraction (table rule)', ref='§5 C05'),
    'C06': dict(text='Static analysis of the Dask layer: op table (Dask method = map_partitions of the same-named pandas method with the same arguments), NaN-ignoring role-typed '
                     'total_bounds, cx partition selection (covered U overlapping, overlapping re-filtered with the same box), set_geometry mapped over partitions, geometry= reaching '
                     'the per-partition reader, who may write the partition caches. Bounds tables of every geometry column filtered with the partitions (from C12), duck-typed selection-key guards.',
                undecided='Dask graph semantics, equality of computed values.',
                technique='table/sibling agreement + def-use provenance + who-may-write', ref='§5 C06'),
    'C08': dict(text='Static analysis of hilbert_distance: no store into the total_bounds argument (effects), no cross-row operation between bounds and result, '
                     'same-dimension centre/range, zero-extent widening on both axes, both clips dominate the return of _data2coord, delegation passes total_bounds and p. 64-bit width of the distances on the whole path to the caller. Every return passes through the grid kernel; no read of rows rewritten in place; total_bounds elements converted to float (homogeneous tuple for numba). Small-scope evaluation (E-VEC) of _data2coord (scale, truncate, clamp; NaN to cell 0), of the box centres handed to it, and of the bit interleave for p up to 31 (every bit of both coordinates reaches the distance).',
                undecided='the curve itself (C07), floating-point scaling exactness.',
                technique='effect analysis + def-use non-interference + small-scope evaluation of the scaling / interleave kernels', ref='§5 C08'),
    'C09': dict(text='Static analysis of pack_partitions: distance column from the active geometry with frame-level total_bounds evaluated once outside the per-partition '
                     'function and passed explicitly with the caller\'s p; assigned column = set_index column; npartitions/shuffle reach set_index; partition-count guard on every path. Necessary obligations of C08 and of the Dask total_bounds reduction are re-reported here. An already packed frame loses its old index before set_index (dask contract S9).',
                undecided='row conservation and ordering under Dask\'s shuffle, independence from input partitioning.',
                technique='def-use provenance + CFG must-pass-through', ref='§5 C09'),
    'C10': dict(text='Static analysis of pack_partitions_to_parquet and its closures: create/cleanup pairing of the placeholder and temp directory families on every normal path, '
                     'ordering (overwrite before makedirs, remove placeholder before write, read before delete, metadata on every path, fresh re-read returned), naming templates of '
                     'sub-parts/placeholders/final files and the compaction move, validation of tempdir_format before use. Renumbering moves form a serial ascending chain; no file addressed through its pre-rename name afterwards; empty-partition sentinel agreement between producer and filter; temp template only defaulted; removal confined to created directories; no per-call-fresh value in a default argument. Reader-side part ordering (C11.d/C12.c) re-reported: the returned frame is a re-read. Bulk renumbering must not delete targets; reader file provenance (listing, not recorded names). A writer submitted to an executor counts as the write; both sides of the listing gate order-free; removal targets never above the created directory.',
                undecided='file contents, Dask quantiles/digitize, real filesystem effects.',
                technique='CFG must-pass-through/ordering + path-template comparison', ref='§5 C10'),
    'C11': dict(text='Static analysis of the type registry and parquet hooks: closure of Dtype<->Array<->scalar<->Dask example<->nesting level for all seven kinds, arrow hooks, '
                     'constructor acceptance of (Chunked)Array, index columns prepended to a projection, natural sort of pieces. Dtype parsing answers per class (no table inherited by subclasses); GeoSeries keeps the labels of Series-like input; one piece per file; dataset files come from the directory listing. The pandas writer receives df/index/compression as given; projections keep the request order; dask token of a geometry array exists, includes the dtype and covers validity and offset (S10, S14); task names contain whole arguments; listings are not memoised; the glob filter only excludes metadata names. Column projections pass through to every piece; glob patterns expanded per entry.',
                undecided='pyarrow/pandas serialisation itself (almost all value-level content of the property).',
                technique='registry closure (table rule) + def-use', ref='§5 C11'),
    'C12': dict(text='Static analysis of partition-bounds metadata: writer/reader key agreement, per-partition values from that partition\'s total_bounds in partition order, '
                     'string->int conversion before the ordering sort, natural sort of pieces, closed-overlap filter with re-oriented box (exhaustive order-type evaluation), one mask '
                     'for partitions/divisions/all bounds tables, bounds of the active geometry used for filtering. No memoisation of storage reads; the geometry name is read after set_geometry (CFG order); selection-key guard of cache propagation. Concrete small-scope fallback for computed overlap masks; NaN-aware merging of extents; class-level containers never filled through instances; box coordinates never tested for truth; array extents computed from the own window of the array. A dataset\'s bounds table is reported only when it has one row per file read, or its rows are selected by file (D31). Filtering only when bounds= is given; overlap masks computed in helpers followed; every per-partition callable returns exactly one row on every return.',
                undecided='that the recorded numbers equal the data extents (C13, pyarrow).',
                technique='key/table agreement + CFG ordering + order-type evaluation + def-use pairing', ref='§5 C12'),
    'C13': dict(text='Static analysis of bounds kernels and accessors: parity->axis, min/max roles, isfinite guards, sentinel->NaN, result layout, values/offsets pairing (absolute vs '
                     'windowed), validity-mask sanitisation of fixed-width values, delegations return the same layout. NaN-initialised result buffers are floating point for every coordinate subtype; no fastmath. Small-scope order-type equivalence of the extent kernel (E-VEC); reduceat empty-segment repair (S11); result buffers float64.',
                undecided='numerical equality.',
                technique='abstract interpretation (units/roles) + small-scope order-type evaluation + CFG must-guard + taint', ref='§5 C13'),
    'C14': dict(text='Static analysis of measures: dimension of length (sqrt(dX^2+dY^2)) and area (X*dY, halved), isfinite guards, confinement to the ring, map depth = nesting level with '
                     'offsets composed per level, missing guard and NaN prefill, per-kind table, scalar=array kernel with the element\'s innermost offsets, boundary re-wrap with mask. Decision table (store guard x prefill) for missing / part-less / present elements; repository-defined decorator wrappers analysed as part of the method; no fastmath. Arrow data of geometry arrays is never built with from_pandas=True (S16: it would turn NaN vertices into null slots holding 0.0).',
                undecided='that the shoelace/wrap-around formula is right, degenerate-ring threshold, floating-point accuracy.',
                technique='abstract interpretation (units/dimensions/levels) + table rule', ref='§5 C14'),
    'C15': dict(text='Static analysis of oriented(): the mutating kernel receives a fresh copy (effects), the result is rebuilt from the same offsets per level with the validity mask '
                     'outermost, kernel level typing (polygon offsets index rings, ring offsets index coordinates), shell = first ring, both strides reversed over the same range. Shell-marker store stays inside the per-ring array (start offsets of trailing part-less polygons excluded). Flip decision as a finite table over (sign of area, expected direction) in all worlds of sign-independent tests (tolerances), helpers followed. Small-scope evaluation (E-VEC) of orient_polygons on all shells / holes over a small grid incl. repeated vertices: direction, same vertex cycle, area-less rings untouched; the result carries no state of the input.',
                undecided='the sign convention, idempotence, effect on areas and intersections.',
                technique='effect analysis + abstract interpretation (levels) + small-scope evaluation of the orientation kernel + finite sign table', ref='§5 C15'),
    'C16': dict(text='Static analysis of derived arrays: every positional raw-buffer read applies the array offset/length, absolute/re-based pairing at kernel call sites, _sindex never '
                     'carried over, derivations construct the receiver\'s own class. Validity bitmap read for len(array) bits from bit array.offset (loop and vectorised idioms). Small-scope equivalence of the validity-bitmap read (offsets 0..20 x lengths 0..12 x 3 patterns); slice shortcuts of take/mask taken only for consecutive positions (all index vectors of length <= 4); scalars built with the array dtype. Small-scope equivalence of __getitem__ for integer vectors, boolean masks and slices (take inlined); derived arrays carry no state of their source. Re-wrapped child arrays start at offset zero; offsets of masked rows are never used as windows.',
                undecided='pandas-level semantics and error types, equality of derived quantities.',
                technique='who-may-read raw buffers + abstract interpretation (base tags) + small-scope evaluation of index/bit arithmetic + who-may-write', ref='§5 C16'),
    'C17': dict(text='Static analysis, union of the inert-row rules: fixed-width placeholder values sanitised by the validity mask before any result, NaN rows never covered / never '
                     'poisoning reductions in the R-tree, inert rows => False in every box kernel, NaN-ignoring Dask reductions, missing guard + NaN prefill in measures. The dtype of an array built element by element is promoted over all non-missing elements (D30).',
                undecided='the metamorphic relation as a whole (all results for other rows unchanged).',
                technique='taint (validity mask) + NaN order-type evaluation + CFG must-guard', ref='§5 C17'),
    'C18': dict(text='Static effect analysis: prange bodies store only A[i] and call only store-free callees, parallel=True kernels use per-iteration result slots, Dask task functions '
                     'write no captured/global state and their write targets are functions of the task identity, in-place kernels receive only fresh copies. Block boundaries derived from the thread count are provably even before they cut an interleaved buffer; decorator wrappers that store into the receiver; cx indexer works on one snapshot of the index. Renumbering moves are not turned into tasks; pool tasks fill no shared list in completion order; values evaluated once (defaults, module constants) hold nothing that must be fresh per call. No loop-carried scalar in a prange body; the shuffle method does not depend on ambient Dask configuration.',
                undecided='check-then-build caches under concurrent first access, numba runtime, Dask scheduler.',
                technique='effect analysis (stores closed over the call graph) + provenance of mutated buffers', ref='§5 C18'),
    'C19': dict(text='Static analysis of the retried closures: no swallowed errors on the call tree (enumerated metadata-optional reads excepted), listing-equality gate dominates the '
                     'read of a sub-part directory and raises inside the retried function, removal re-checks existence and raises, retried writers open truncating, every filesystem '
                     'operation goes through the caller\'s filesystem object. Retried functions mutate no state that outlives the attempt (captured or passed in). Attempt-independent write paths; per-attempt collector lists consumed one entry at a time. Both sides of the listing gate are order-free in the same way. Emptiness of a partition and the skipping of a move are decided from the expected sub-part list / the file itself, never from a directory listing; futures are asked for their result; helpers nested in retried functions are analysed as part of them.',
                undecided='idempotence under real partial failures, the fault enumeration itself.',
                technique='CFG dominance + handler discipline + who-may-call', ref='§5 C19'),
    'C20': dict(text='Static analysis of the active geometry: _geometry in _metadata, every frame-level spatial operation obtains the geometry through .geometry, constructor inheritance and '
                     'set_geometry validation, Dask set_geometry mapped and geometry= reaching partitions, re-derivation hooks (__finalize__ for combined inputs, meta_nonempty, sjoin wrap). Inputs of the geometry agreement are not filtered by row count; bounds of all geometry columns stay aligned with the partitions (from C12). set_geometry returns self only when inplace; Dask type hooks answer from their argument only; dask token includes the active geometry (S10). __finalize__ does not return early on a pre-set geometry name before the inputs of a combination are consulted.',
                undecided='which pandas code path a given operation takes (S5 is a model of pandas), result types beyond the hooks.',
                technique='def-use provenance (who-reads) + table rule', ref='§5 C20'),
}

NOT_APPLICABLE = {
    'C07': 'Bijectivity, adjacency and refinement of the Hilbert mapping are arithmetic facts about the Gray-code / exchange steps of the curve; no clause is a shape property '
           '(pairing, ordering, ownership, layout) that a sound static rule could decide, and a structural proxy would be a frozen-text rule (DESIGN §5 C07, §7). The one step with a '
           'positional meaning - the bit interleave of the transposed coordinates - is decided under C08.k; it is necessary for C08/C09, not a decision of C07.',
}


def main():
    props = [json.loads(l)['id'] for l in open(V / 'properties.jsonl')]
    checks = []
    na = []
    for p in props:
        have = (V / 'sa' / 'rules' / f'{p}.py').exists()
        if p in CLAIMS and have:
            c = CLAIMS[p]
            checks.append({
                'property_id': p,
                'quick_cmd': f'python3 sa/check.py {p} --tier quick',
                'thorough_cmd': f'python3 sa/check.py {p} --tier thorough',
                'evidence_file': f'/verif/evidence/{p}.json',
                'replay_cmd_template': f'python3 sa/check.py {p} --replay {{path}}',
                'engine': 'sa',
                'level_claimed': {'category': 'other',
                                  'text': c['text'] + ' Partial claim: these are necessary conditions of the property decided for every path of the current source; '
                                          'the check does not assert the behavioural property as a whole.',
                                  'design_ref': c['ref']},
                'level_note': COMMON_NOTE + c['undecided'],
                'technique': 'static analysis: ' + c['technique'],
            })
        elif p in NOT_APPLICABLE:
            na.append({'property_id': p, 'reason': NOT_APPLICABLE[p]})
        else:
            na.append({'property_id': p, 'reason': 'static check for this property is not (yet) part of the committed machinery; see DESIGN.md §5 for the planned clauses'})
    m = {
        'version': 1,
        'setup_cmd': 'python3 -m compileall -q sa selftest tools >/dev/null && python3 sa/check.py --help >/dev/null',
        'hooks': {'guard': 'SPATIALPANDAS_VERIF', 'enable': 'none needed: the checks parse /repo\'s working tree, nothing is built or instrumented',
                  'baseline_off_cmd': 'cd /repo && /venv/bin/python -m pytest -ra -q -p no:cacheprovider --timeout=900 --continue-on-collection-errors',
                  'source_commits': [], 'add_only': True},
        'engines': [{'name': 'sa', 'path': 'sa/', 'serves_properties': [c['property_id'] for c in checks],
                     'kind_free_text': 'repository-specific static analysis on CPython ast: resolved program model (MRO, decorators, closures, call graph), per-function CFG, '
                                       'effect analysis, def-use provenance, units/levels abstract interpretation, exhaustive order-type evaluation of comparison-only fragments'}],
        'checks': checks,
        'not_applicable': na,
        'notes': 'All checks are static (nothing from /repo is imported or executed). Exit 0 = all obligations discharged or only KNOWN-FINDING lines; exit 1 = VIOLATION; '
                 'exit 2 = ANALYSIS-ERROR (analysis incomplete, never a verdict). thorough = quick + the sensitivity/silence battery (sa/selftest.py) on scratch copies.',
    }
    (V / 'MANIFEST.json').write_text(json.dumps(m, indent=1))
    print(f'{len(checks)} checks, {len(na)} not_applicable')


if __name__ == '__main__':
    main()
