#!/bin/bash
# usage: tools/try_seed.sh <change-dir> [props...]  -- run checks on a scratch copy of /repo with the patch applied
S=$(realpath "$1"); shift
PROPS="$@"
if [ -z "$PROPS" ]; then PROPS=$(python3 -c "import json;print(' '.join(c['property_id'] for c in json.load(open('/verif/MANIFEST.json'))['checks']))"); fi
W=$(mktemp -d /tmp/tryseed.XXXXXX)
${VERIF_HOME:-/verif}/tools/scratch.sh $W
if ! patch -s -p1 -d $W < "$S/patch.diff"; then echo "PATCH FAILED"; rm -rf $W; exit 3; fi
cd ${VERIF_HOME:-/verif}
for p in $PROPS; do
  out=$(VERIF_REPO=$W VERIF_EVIDENCE_DIR=$W/.evidence python3 sa/check.py $p 2>&1); rc=$?
  if [ $rc -ne 0 ]; then echo "--- $p rc=$rc"; echo "$out" | grep -E "violated|ANALYSIS-ERROR" | sed "s#$W/##" | cut -c1-400 | head -6; fi
done
rm -rf $W
