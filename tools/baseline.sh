#!/bin/bash
# usage: tools/baseline.sh [repo_dir]   -- run the pinned suite in repo_dir (default /repo), compare with BASELINE stable_pass
# Not part of any check: used by hand to confirm that fix: commits and seeded changes keep the suite green.
D=${1:-/repo}
OUT=$(mktemp /tmp/junit.XXXXXX.xml)
(cd "$D" && /venv/bin/python -m pytest -q -p no:cacheprovider --timeout=900 --continue-on-collection-errors -n 8 --junitxml="$OUT" >/dev/null 2>&1)
python3 - "$OUT" <<'PY'
import json, sys, subprocess
b = json.load(open('/root/.vp/BASELINE.json'))
want = set(b['stable_pass'])
res = json.loads(subprocess.run(['python3', '/w/lib/parse_tests.py', sys.argv[1]], capture_output=True, text=True).stdout or '{}') if False else None
import xml.etree.ElementTree as ET
t = ET.parse(sys.argv[1])
passed = set()
for tc in t.iter('testcase'):
    bad = any(c.tag in ('failure', 'error', 'skipped') for c in tc)
    if not bad:
        passed.add(f"{tc.get('classname')}::{tc.get('name')}")
missing = sorted(want - passed)
print(f"baseline stable_pass={len(want)} passed_now={len(passed)} missing={len(missing)}")
for m in missing[:20]: print("  MISSING", m)
sys.exit(1 if missing else 0)
PY
rc=$?
rm -f "$OUT"
exit $rc
