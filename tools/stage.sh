#!/bin/bash
# usage: tools/stage.sh <tag>   -- move /tmp/wt_<tag>/_out to /tmp/staging/<tag>, drop the worktree, verify each change (queued)
T=$1
mkdir -p /tmp/staging
if [ -d /tmp/wt_$T/_out ]; then cp -r /tmp/wt_$T/_out /tmp/staging/$T; fi
git -C /repo worktree remove --force /tmp/wt_$T 2>/dev/null
( flock 9
  for d in /tmp/staging/$T/change*; do [ -f $d/patch.diff ] && /verif/tools/verify_seed.sh $d; done
) 9>/tmp/staging/.lock >/dev/null 2>&1 &
