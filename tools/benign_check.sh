#!/bin/bash
# run every registered quick check on the three behaviour-preserving whole-package transforms; print anything that is not exit 0
cd /verif
for T in ${TS:-T3 T1 T2 T4 T5 T6 T7 T8}; do
  D=$(mktemp -d /tmp/benign.XXXXXX); BENIGN_SRC=${BENIGN_SRC:-/repo} python3 tools/benign.py $T $D
  for p in $(python3 -c "import json;print(' '.join(c['property_id'] for c in json.load(open('MANIFEST.json'))['checks']))"); do
    out=$(VERIF_REPO=$D VERIF_EVIDENCE_DIR=$D/.ev python3 sa/check.py $p 2>&1); rc=$?
    if [ $rc -ne 0 ]; then echo "--- $T $p rc=$rc"; echo "$out" | grep -E "violated|ANALYSIS" | cut -c1-${W:-230} | head -${N:-3}; fi
  done
  rm -rf $D
done
