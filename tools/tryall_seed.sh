#!/bin/bash
d=$1
out=$(/verif/tools/try_seed.sh $d 2>&1 | grep -E "^--- " | tr '\n' ' ')
echo "$d :: $out"
