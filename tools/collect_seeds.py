#!/usr/bin/env python3
"""Copy VERIFIED staged changes into /verif/seeded/<id>/ and run every registered quick check against each one, the way the brief
prescribes: git -C /repo apply <patch>; run checks; git -C /repo checkout -- .   (never committed to /repo).
usage: tools/collect_seeds.py [--only Cxx-k ...]"""
import json
import os
import pathlib
import shutil
import subprocess
import sys

V = pathlib.Path('/verif')
ST = pathlib.Path('/tmp/staging')


def sh(cmd, **kw):
    return subprocess.run(cmd, shell=True, capture_output=True, text=True, **kw)


def main():
    only = sys.argv[2:] if len(sys.argv) > 2 and sys.argv[1] == '--only' else None
    checks = [c['property_id'] for c in json.load(open(V / 'MANIFEST.json'))['checks']]
    assert sh('git -C /repo status --porcelain --untracked-files=no').stdout.strip() == '', '/repo has uncommitted changes'
    head = sh('git -C /repo rev-parse --short HEAD').stdout.strip()
    for d in sorted(ST.glob('C*/change*')):
        sid = f'{d.parent.name}-{d.name[-1]}'
        if (V / 'seeded' / sid / 'meta.json').exists() and not only and os.environ.get('COLLECT_ALL') != '1':
            pass
        if only and sid not in only:
            continue
        log = (d / 'verify.log').read_text() if (d / 'verify.log').exists() else ''
        if 'VERIFIED' not in log.split('NOT_')[0] or 'NOT_VERIFIED' in log:
            print(sid, 'not verified, skipped')
            continue
        out = V / 'seeded' / sid
        out.mkdir(parents=True, exist_ok=True)
        shutil.copy(d / 'patch.diff', out / 'patch.diff')
        shutil.copy(d / 'demo.py', out / 'demo.py')
        if (d / 'patch.orig.diff').exists():
            shutil.copy(d / 'patch.orig.diff', out / 'patch.as_written.diff')
        meta = json.load(open(d / 'meta.json'))
        r = sh(f'git -C /repo apply --check {out}/patch.diff')
        applies = r.returncode == 0
        detected = {}
        ran = []
        if applies:
            sh(f'git -C /repo apply {out}/patch.diff')
            try:
                from concurrent.futures import ThreadPoolExecutor
                # every registered quick check, run concurrently on the patched /repo; evidence files are restored afterwards (they must describe the unchanged tree)
                with ThreadPoolExecutor(max_workers=20) as ex:
                    results = list(ex.map(lambda p: (p, sh(f'VERIF_EVIDENCE_DIR=/tmp/seed_evidence python3 sa/check.py {p} --tier quick', cwd=str(V))), checks))
                for p, rr in results:
                    ran.append(f'python3 sa/check.py {p} --tier quick -> exit {rr.returncode}')
                    if rr.returncode != 0:
                        rules = sorted({l.split()[1] for l in rr.stdout.splitlines() if l.strip().startswith('violated ')})
                        detected[p] = {'exit': rr.returncode, 'rules': rules,
                                       'first': next((l.strip()[:300] for l in rr.stdout.splitlines() if l.strip().startswith('violated ') or 'ANALYSIS-ERROR' in l), '')}
            finally:
                sh('git -C /repo checkout -- .')
        else:
            # applied with fuzz on a scratch copy (the patch was made against an earlier HEAD of /repo)
            rr = sh(f'{V}/tools/try_seed.sh {out}', cwd=str(V))
            for blk in rr.stdout.split('--- ')[1:]:
                p = blk.split()[0]
                rules = sorted({l.split()[1] for l in blk.splitlines() if l.strip().startswith('violated ')})
                detected[p] = {'exit': 1 if rules else 2, 'rules': rules, 'first': next((l.strip()[:300] for l in blk.splitlines() if l.strip().startswith('violated ')), '')}
            ran.append('tools/try_seed.sh (scratch copy, patch -p1 with fuzz)')
        new_meta = {
            'id': sid,
            'property': meta.get('property', d.parent.name),
            'summary': meta.get('summary'),
            'needs': meta.get('needs'),
            'files': meta.get('files'),
            'origin': 'written by a fresh sub-agent that was given only the property text and its own scratch git worktree of /repo (nothing from /verif)',
            'confirmed': {
                'how': 'tools/verify_seed.sh in a fresh scratch worktree: patch applies; demo exits non-zero with the change; pinned suite (495 baseline tests) still passes with the change; '
                       'demo exits 0 without the change',
                'log': [l for l in log.splitlines() if l.strip()],
            },
            'agent_ran': meta.get('ran'),
            'checks_run_at_repo_head': head,
            'rebased': ('the patch was rebased onto the current /repo HEAD after a later fix: commit touched the same lines; the change as the agent wrote it is patch.as_written.diff' if (d / 'patch.orig.diff').exists() else None),
            'own_property_detects': bool(detected.get(meta.get('property', d.parent.name[:3]), {}).get('exit') == 1),
            'applied_with': 'git -C /repo apply; checks; git -C /repo checkout -- .' if applies else 'scratch copy with patch -p1 (patch predates later fix: commits)',
            'what_ran': ran,
            'detected_by': detected,
            'detected': bool([p for p, v in detected.items() if v['exit'] == 1]),
        }
        (out / 'meta.json').write_text(json.dumps(new_meta, indent=1))
        print(sid, 'DETECTED by' if new_meta['detected'] else 'MISSED', {p: v['rules'] for p, v in detected.items()})
    assert sh('git -C /repo status --porcelain --untracked-files=no').stdout.strip() == '', '/repo left dirty!'


if __name__ == '__main__':
    main()
