import json, sys, subprocess, os
ROUND = 'r7'
ids = sys.argv[1:]
props = {json.loads(l)['id']: json.loads(l) for l in open('/verif/properties.jsonl')}
for pid in ids:
    tag = pid + ROUND
    wt = f'/tmp/wt_{tag}'
    if not os.path.exists(wt):
        subprocess.run(['git', '-C', '/repo', 'worktree', 'add', '-q', '--detach', wt, 'HEAD'], check=True)
    p = props[pid]
    import glob
    prior_items = []
    for mf in sorted(glob.glob(f'/tmp/staging/{pid}*/*/meta.json')):
        try:
            mm = json.load(open(mf))
            prior_items.append('* ' + ' '.join(str(mm.get('summary', '')).split())[:420])
        except Exception:
            pass
    prior = '\n'.join(prior_items) or '(none)'
    text = f"""# Task: seed realistic defects into spatialpandas that break one stated property

You are working in `{wt}`, a scratch git worktree of the spatialpandas repository (Pandas/Dask extension
arrays for vector geometry).  Work ONLY inside `{wt}`.  Never modify `/repo`, and never read or touch `/verif`.
The sandbox has no network.  Python with all dependencies: `/venv/bin/python` (spatialpandas is installed in
editable mode pointing at /repo, so ALWAYS run with the worktree first on the path: run pytest as
`cd {wt} && /venv/bin/python -m pytest ...` and scripts as `cd {wt} && PYTHONPATH={wt} /venv/bin/python script.py`;
check `spatialpandas.__file__` starts with `{wt}`).  shapely/geopandas are NOT installed.

## The property (this is all you get; it is a behavioural property users rely on)

id: {p['id']} — {p['title']}

Statement: {p['statement']}

Quantifier: {p['quantifier']['text']}

Why the existing tests cannot settle it: {p['why_tests_cant']}

Where it is anchored in the code: files {p['anchors']['files']}; mechanisms: {json.dumps(p['anchors']['mechanism'], indent=1)}

Observe at: {p['anchors'].get('observe_at')}

## What to produce

Up to THREE different, independent changes to the library source (files under `spatialpandas/`, not under
`spatialpandas/tests/`), each of which

1. BREAKS the property above (for some input / configuration / sequence of operations in its quantifier),
2. still imports, and still passes the existing test suite exactly as the unmodified tree does
   (check with `/tmp/tools/baseline.sh {wt}` — it prints `missing=0` and exits 0 when all 495 baseline tests still
   pass; about a minute per run),
3. looks like a realistic mistake or a plausible "refactor"/"optimisation"/"cleanup" a developer could commit
   (an off-by-one, a swapped argument, a wrong level of offsets, a dropped guard or mask, a comparison operator,
   a missing cleanup, a wrong key, a wrong column, a lost copy, wrong ordering of two steps, ...),
4. needs something SPECIFIC to manifest — an unusual input (missing/empty elements, sliced arrays with
   non-zero offsets, reversed box corners, ties on edges, many parts/rings, >10 partitions, second geometry
   column active, an `inds` subset, ...), a multi-step sequence of operations, a particular fault or
   interleaving, or two cooperating sites that each look fine alone.  NOT something ordinary use would
   expose at once.
   
This is a SEVENTH round.  The changes below have ALREADY been collected for this property by earlier rounds — do NOT
repeat them or close variations of them (same function + same kind of mistake):

{prior}

Go somewhere else: other functions and files that take part in the property (follow the call graph from the "observe at"
entry points: constructors, converters, scalar classes, `__getitem__`/`take`/`copy`/`_concat_same_type`, Dask glue,
parquet reader/writer helpers, utils), other kinds of mistake (wrong dtype or width, wrong default argument, a condition
that is right for one geometry kind but applied to all, mixed-up units such as values vs vertices vs bytes, an index
computed in one coordinate system and used in another, stale state after a sequence of calls, error handling that hides
a failure, an off-by-one that only matters at a buffer or page boundary, order of two statements, aliasing where a copy
is needed or a copy where the alias is needed), and plausible refactors (helper extraction, vectorisation, early exit,
caching, "simplification" of a condition, replacing a loop by a library call with slightly different semantics).
At least one change should have TWO cooperating sites (each looks fine alone).  Avoid single-token flips.
Put all demo code under `if __name__ == "__main__":` (pytest's --doctest-modules imports every .py file in the worktree);
do not assert in the demo that spatialpandas was imported from a particular directory.

Make the three changes as different from each other as you can: different functions/files/mechanisms of the
property, and different kinds of mistake.  Each change is independent (each is a diff against the unmodified
HEAD, not stacked).

For each change k = 1, 2, 3 write into `{wt}/_out/change<k>/`:

* `patch.diff` — `git diff` of the change against HEAD (only library source files),
* `demo.py` — a small self-contained program (no pytest needed) that exits 0 on the unmodified tree and exits
  non-zero (assertion failure) with the change applied; it should print what it observed.  Run it with
  `cd {wt} && PYTHONPATH={wt} /venv/bin/python _out/change<k>/demo.py`,
* `meta.json` — {{"property": "{p['id']}", "summary": "<one sentence: what was changed>", "needs": "<what specific
  input / sequence / configuration is needed for it to manifest>", "files": [...], "ran": ["<commands you ran
  and their outcome: baseline with change, demo without change, demo with change>"]}}.

Procedure per change: edit the source; run the baseline script (must say missing=0); run the demo (must fail);
save `git diff > _out/change<k>/patch.diff`; then `git checkout -- spatialpandas` to restore; run the demo
again (must pass).  Keep `_out/` untracked.  Leave the worktree's source restored to HEAD when you finish.

Finish with a short report listing, per change, the summary and the three outcomes.  If you cannot find a third
(or second) change that satisfies everything, deliver fewer — quality over quantity.
"""
    open(f'{wt}/_TASK.md', 'w').write(text)
    print(wt)
