#!/bin/bash
# usage: tools/verify_seed.sh <dir-with patch.diff demo.py meta.json>
# Confirms in a fresh scratch worktree: patch applies; suite still passes; demo fails with the change and passes without it.
S=$(realpath "$1")
W=$(mktemp -d /tmp/vseed.XXXXXX)
rmdir "$W"
git -C /repo worktree add -q --detach "$W" HEAD || exit 3
cd "$W"
res() { echo "$1" >> "$S/verify.log"; }
: > "$S/verify.log"
if ! git apply "$S/patch.diff" 2>>"$S/verify.log"; then res "APPLY_FAILED"; cd /; git -C /repo worktree remove --force "$W"; exit 3; fi
res "applied to $(git -C /repo rev-parse --short HEAD)"
/venv/bin/python -c "import sys; sys.path.insert(0,'$W'); import spatialpandas; assert spatialpandas.__file__.startswith('$W')" 2>/dev/null || res "IMPORT_FAILED"
PYTHONPATH="$W" timeout 900 /venv/bin/python "$S/demo.py" > "$S/demo_with.out" 2>&1; rc1=$?
res "demo_with_change rc=$rc1"
/verif/tools/baseline.sh "$W" > "$S/baseline.out" 2>&1; rcb=$?
res "baseline_with_change rc=$rcb $(head -1 "$S/baseline.out")"
git checkout -q -- . 
PYTHONPATH="$W" timeout 900 /venv/bin/python "$S/demo.py" > "$S/demo_without.out" 2>&1; rc0=$?
res "demo_without_change rc=$rc0"
cd /
git -C /repo worktree remove --force "$W"
if [ $rc1 -ne 0 ] && [ $rc0 -eq 0 ] && [ $rcb -eq 0 ]; then res "VERIFIED"; exit 0; else res "NOT_VERIFIED"; exit 1; fi
