#!/usr/bin/env python3
"""Behaviour-preserving whole-package transforms used to look for rules that are really frozen text:
   T1 mirror every comparison (a < b -> b > a), T2 rename function-local variables, T3 re-print every module with ast.unparse.
T4 no-op insertion, T5 two-armed if inversion, T6 returns through a temporary.
usage: tools/benign.py T1..T6 <outdir>   (writes <outdir>/spatialpandas/...)"""
import ast
import pathlib
import sys

MIRROR = {ast.Lt: ast.Gt, ast.Gt: ast.Lt, ast.LtE: ast.GtE, ast.GtE: ast.LtE}


class Mirror(ast.NodeTransformer):
    def visit_Compare(self, n):
        self.generic_visit(n)
        if len(n.ops) == 1 and type(n.ops[0]) in MIRROR:
            return ast.copy_location(ast.Compare(left=n.comparators[0], ops=[MIRROR[type(n.ops[0])]()], comparators=[n.left]), n)
        return n


class Rename(ast.NodeTransformer):
    """Rename names that are assigned (Store) inside a function and are not parameters, globals, nonlocals or used as keyword names.
    Nested functions see the same mapping for names they do not bind themselves."""

    def __init__(self):
        self.stack = []

    def _locals(self, fn):
        params = {a.arg for a in fn.args.posonlyargs + fn.args.args + fn.args.kwonlyargs}
        if fn.args.vararg:
            params.add(fn.args.vararg.arg)
        if fn.args.kwarg:
            params.add(fn.args.kwarg.arg)
        stores = set()
        banned = set(params)
        stack = list(fn.body)
        while stack:
            n = stack.pop()
            if isinstance(n, (ast.FunctionDef, ast.AsyncFunctionDef, ast.ClassDef)):
                banned.add(n.name)
                continue
            if isinstance(n, ast.Lambda):
                continue
            if isinstance(n, (ast.Global, ast.Nonlocal)):
                banned |= set(n.names)
            if isinstance(n, (ast.Import, ast.ImportFrom)):
                for a in n.names:
                    banned.add((a.asname or a.name).split('.')[0])
            if isinstance(n, ast.Name) and isinstance(n.ctx, ast.Store):
                stores.add(n.id)
            stack.extend(ast.iter_child_nodes(n))
        return {s: s + '_v' for s in stores - banned if not s.startswith('__')}, params

    def visit_FunctionDef(self, fn):
        mapping, params = self._locals(fn)
        inherited = {}
        for m in self.stack:
            inherited.update(m)
        for p in params:
            inherited.pop(p, None)
        cur = dict(inherited)
        cur.update(mapping)
        # decorators and defaults are evaluated in the enclosing scope
        fn.decorator_list = [self.visit(d) for d in fn.decorator_list]
        fn.args.defaults = [self.visit(d) for d in fn.args.defaults]
        fn.args.kw_defaults = [self.visit(d) if d is not None else None for d in fn.args.kw_defaults]
        self.stack.append(cur)
        fn.body = [self.visit(s) for s in fn.body]
        self.stack.pop()
        return fn

    visit_AsyncFunctionDef = visit_FunctionDef

    def visit_Lambda(self, n):
        params = {a.arg for a in n.args.args}
        cur = dict(self.stack[-1]) if self.stack else {}
        for p in params:
            cur.pop(p, None)
        self.stack.append(cur)
        n.body = self.visit(n.body)
        self.stack.pop()
        return n

    def visit_ClassDef(self, n):
        saved = self.stack
        self.stack = []
        self.generic_visit(n)
        self.stack = saved
        return n

    def visit_Name(self, n):
        if self.stack and n.id in self.stack[-1]:
            n.id = self.stack[-1][n.id]
        return n

    def visit_ListComp(self, n):
        # comprehension targets are their own scope: leave them (and uses of the same name inside) alone
        bound = {x.id for g in n.generators for x in ast.walk(g.target) if isinstance(x, ast.Name)}
        cur = dict(self.stack[-1]) if self.stack else {}
        for b in bound:
            cur.pop(b, None)
        self.stack.append(cur)
        self.generic_visit(n)
        self.stack.pop()
        return n

    visit_GeneratorExp = visit_SetComp = visit_DictComp = visit_ListComp


class Noop(ast.NodeTransformer):
    """T4: a no-op statement at the start of every function body, loop body and if-branch (skipping docstrings)."""

    def _ins(self, body):
        k = 1 if body and isinstance(body[0], ast.Expr) and isinstance(body[0].value, ast.Constant) and isinstance(body[0].value.value, str) else 0
        return body[:k] + [ast.Pass()] + body[k:]

    def visit_FunctionDef(self, n):
        self.generic_visit(n)
        n.body = self._ins(n.body)
        return n

    def visit_For(self, n):
        self.generic_visit(n)
        n.body = self._ins(n.body)
        return n

    def visit_While(self, n):
        self.generic_visit(n)
        n.body = self._ins(n.body)
        return n

    def visit_If(self, n):
        self.generic_visit(n)
        n.body = self._ins(n.body)
        return n


class SwapEq(ast.NodeTransformer):
    """T7: `a == b` -> `b == a`, `a != b` -> `b != a`."""

    def visit_Compare(self, n):
        self.generic_visit(n)
        if len(n.ops) == 1 and isinstance(n.ops[0], (ast.Eq, ast.NotEq)):
            return ast.copy_location(ast.Compare(left=n.comparators[0], ops=n.ops, comparators=[n.left]), n)
        return n


class InvertIf(ast.NodeTransformer):
    """T5: `if c: A else: B` -> `if not c: B else: A` for every two-armed if without elif."""

    def visit_If(self, n):
        self.generic_visit(n)
        if n.orelse and not (len(n.orelse) == 1 and isinstance(n.orelse[0], ast.If)):
            n.test, n.body, n.orelse = ast.UnaryOp(op=ast.Not(), operand=n.test), n.orelse, n.body
        return n


class ReturnTemp(ast.NodeTransformer):
    """T6: `return <expr>` -> `_ret = <expr>; return _ret` (expression returns only; not inside lambdas/generators)."""

    def _rewrite(self, body):
        out = []
        for s in body:
            if isinstance(s, ast.Return) and s.value is not None and not isinstance(s.value, (ast.Name, ast.Constant)):
                out.append(ast.Assign(targets=[ast.Name(id='_ret', ctx=ast.Store())], value=s.value, lineno=s.lineno))
                out.append(ast.Return(value=ast.Name(id='_ret', ctx=ast.Load())))
            else:
                out.append(s)
        return out

    def generic_visit(self, node):
        super().generic_visit(node)
        for field in ('body', 'orelse', 'finalbody'):
            b = getattr(node, field, None)
            if isinstance(b, list) and b and isinstance(b[0], ast.stmt):
                setattr(node, field, self._rewrite(b))
        return node

    def visit_FunctionDef(self, n):
        # numba kernels returning tuples etc. are fine; generators are not affected (return value rarely used)
        return self.generic_visit(n)


class HoistArg(ast.NodeTransformer):
    """T8: in `x = f(<complex>, ...)` / `f(<complex>, ...)` / `return f(<complex>, ...)` the first positional argument is computed into a temporary first
    (only when f is a plain name or attribute chain, so that evaluation order is unchanged, and never inside numba-compiled functions' lambdas)."""

    def __init__(self):
        self.k = 0

    def _hoist(self, stmt, call):
        if not (isinstance(call, ast.Call) and call.args and not isinstance(call.args[0], (ast.Name, ast.Constant, ast.Starred, ast.Lambda, ast.GeneratorExp))):
            return [stmt]
        f = call.func
        while isinstance(f, ast.Attribute):
            f = f.value
        if not isinstance(f, ast.Name):
            return [stmt]
        self.k += 1
        name = f'_arg{self.k}'
        pre = ast.Assign(targets=[ast.Name(id=name, ctx=ast.Store())], value=call.args[0], lineno=stmt.lineno)
        call.args[0] = ast.Name(id=name, ctx=ast.Load())
        return [pre, stmt]

    def _body(self, body):
        out = []
        for s in body:
            if isinstance(s, ast.Assign) and isinstance(s.value, ast.Call):
                out.extend(self._hoist(s, s.value))
            elif isinstance(s, ast.Expr) and isinstance(s.value, ast.Call):
                out.extend(self._hoist(s, s.value))
            elif isinstance(s, ast.Return) and isinstance(s.value, ast.Call):
                out.extend(self._hoist(s, s.value))
            else:
                out.append(s)
        return out

    def generic_visit(self, node):
        super().generic_visit(node)
        if isinstance(node, (ast.Module, ast.ClassDef)):
            return node
        for field in ('body', 'orelse', 'finalbody'):
            b = getattr(node, field, None)
            if isinstance(b, list) and b and isinstance(b[0], ast.stmt):
                setattr(node, field, self._body(b))
        return node


def main():
    kind, out = sys.argv[1], pathlib.Path(sys.argv[2])
    import os
    root = pathlib.Path(os.environ.get('BENIGN_SRC', '/repo'))
    for p in (root / 'spatialpandas').rglob('*.py'):
        rel = p.relative_to(root)
        if 'tests' in rel.parts:
            continue
        src = p.read_text()
        tree = ast.parse(src)
        if kind == 'T1':
            tree = Mirror().visit(tree)
        elif kind == 'T2':
            tree = Rename().visit(tree)
        elif kind == 'T4':
            tree = Noop().visit(tree)
        elif kind == 'T7':
            tree = SwapEq().visit(tree)
        elif kind == 'T8':
            tree = HoistArg().visit(tree)
        elif kind == 'T5':
            tree = InvertIf().visit(tree)
        elif kind == 'T6':
            tree = ReturnTemp().visit(tree)
        ast.fix_missing_locations(tree)
        q = out / rel
        q.parent.mkdir(parents=True, exist_ok=True)
        q.write_text(ast.unparse(tree) + '\n')


if __name__ == '__main__':
    main()
